#!/usr/bin/env python3
"""Mutation self-test of the checker.

  tools/mutants.py scratch <name>            make an editable scratch copy of /repo, print its path
  tools/mutants.py diff <name> <prop> <mut>  write mutants/<prop>/<mut>.patch from the scratch copy's diff to /repo
  tools/mutants.py drop <name>               remove the scratch copy
  tools/mutants.py run <prop> [<mut> ...]    for each patch: copy /repo, apply, type-check via the fact extractor,
                                             run ./check <prop> on the copy; the patch's expected rule must fire
  tools/mutants.py runall                    all properties

A patch file starts with comment lines:
  # expect: <rule-id-prefix>[, <rule-id-prefix>...]      rules of which at least one must report an unlisted violation
  # about: free text
Scratch copies live under /var/tmp/wv-scratch and are removed after use."""
import json
import os
import re
import shutil
import subprocess
import sys

VERIF = os.path.dirname(os.path.dirname(os.path.abspath(__file__)))
REPO = "/repo"
SCR = "/var/tmp/wv-scratch"


def scratch(name):
    dst = os.path.join(SCR, name)
    os.makedirs(SCR, exist_ok=True)
    subprocess.check_call(["rsync", "-a", "--delete", "--exclude", "/target", "--exclude", "/.git", "--exclude", "/wal_files",
                           "--exclude", "/figures", "--exclude", "*/target/", "--exclude", "/rocksdb_benchmark_db", "--exclude", "*.csv", "--exclude", "/benchmarks", REPO + "/", dst + "/"])
    return dst


def drop(name):
    import hashlib
    dst = os.path.join(SCR, name)
    shutil.rmtree(dst, ignore_errors=True)
    shutil.rmtree(os.path.join(SCR, "ev-" + name), ignore_errors=True)
    # harness instances created for this scratch tree by rules/core/extract.py
    tag = hashlib.sha256(dst.encode()).hexdigest()[:10]
    cache = os.environ.get("VERIF_CACHE", "/var/tmp/walrus-verif-cache")
    for crate in ("dwshim", "oshim"):
        shutil.rmtree(os.path.join(cache, "harness-%s-%s" % (crate, tag)), ignore_errors=True)


def mkdiff(name, prop, mut):
    src = os.path.join(SCR, name)
    p = subprocess.run(["diff", "-ruN", "--exclude=target", "--exclude=.git", "--exclude=wal_files", "--exclude=figures", "--exclude=rocksdb_benchmark_db", "--exclude=*.csv", "--exclude=benchmarks", REPO, src],
                       stdout=subprocess.PIPE, text=True)
    out = p.stdout.replace(src + "/", "b/").replace(REPO + "/", "a/")
    out = re.sub(r"^diff -ruN .*\n", "", out, flags=re.M)
    d = os.path.join(VERIF, "mutants", prop)
    os.makedirs(d, exist_ok=True)
    path = os.path.join(d, mut + ".patch")
    header = ""
    if os.path.exists(path):
        with open(path) as f:
            header = "".join(l for l in f if l.startswith("#"))
    with open(path, "w") as f:
        f.write(header + out)
    print(path)


def parse_expect(path):
    exp = []
    with open(path) as f:
        for l in f:
            if l.startswith("# expect:"):
                exp = [x.strip() for x in l.split(":", 1)[1].split(",") if x.strip()]
    return exp


def run_patch(prop, path, verbose=False, repo=REPO, expect=None, label=None):
    label = label or os.path.basename(path)
    name = "mut-%s-%s-%d" % (prop, re.sub(r"[^A-Za-z0-9_.-]", "_", label).replace(".patch", ""), os.getpid())
    dst = scratch(name)
    try:
        p = subprocess.run(["patch", "-p1", "-s", "-f", "-d", dst, "-i", path], stdout=subprocess.PIPE, stderr=subprocess.STDOUT, text=True)
        if p.returncode != 0:
            return {"patch": label, "status": "patch-failed", "detail": p.stdout[-500:]}
        env = dict(os.environ)
        env["VERIF_REPO"] = dst
        env["VERIF_INNER"] = "1"
        env["VERIF_TIER"] = "quick"
        env.pop("VERIF_NO_FACT_CACHE", None)
        evdir = os.path.join(SCR, "ev-" + name)
        env["VERIF_EVIDENCE_DIR"] = evdir
        q = subprocess.run([os.path.join(VERIF, "check"), prop], stdout=subprocess.PIPE, stderr=subprocess.PIPE, text=True, env=env, cwd=VERIF)
        exp = expect if expect is not None else parse_expect(path)
        fired = []
        try:
            with open(os.path.join(evdir, prop + ".json")) as f:
                ev = json.load(f)
            fired = ev["coverage"].get("unlisted_violations", [])
        except Exception:
            pass
        hit = [k for k in fired if any(k.startswith(e) for e in exp)]
        if q.returncode == 2:
            status = "does-not-compile-or-checker-error"
        elif q.returncode == 1 and hit:
            status = "caught"
        elif q.returncode == 1:
            status = "caught-by-other-rule"
        else:
            status = "MISSED"
        res = {"patch": label, "status": status, "expected": exp, "fired": fired[:8], "exit": q.returncode}
        if verbose or status not in ("caught",):
            res["stdout"] = q.stdout[-1500:]
            res["stderr"] = q.stderr[-1500:]
        return res
    finally:
        drop(name)


def run(prop, muts, verbose=False):
    d = os.path.join(VERIF, "mutants", prop)
    if not os.path.isdir(d):
        return []
    files = sorted(f for f in os.listdir(d) if f.endswith(".patch"))
    if muts:
        files = [f for f in files if f.replace(".patch", "") in muts]
    return _pmap(lambda f: run_patch(prop, os.path.join(d, f), verbose), files)


def _pmap(fn, items):
    """run the per-patch checks of a self-test side by side (each works on its own scratch copy)"""
    items = list(items)
    jobs = int(os.environ.get("VERIF_JOBS", "6"))
    if jobs <= 1 or len(items) <= 1:
        return [fn(x) for x in items]
    from concurrent.futures import ThreadPoolExecutor
    with ThreadPoolExecutor(max_workers=jobs) as ex:
        return list(ex.map(fn, items))


def parse_header(path, key):
    with open(path) as f:
        for l in f:
            if l.startswith("# %s:" % key):
                return [x.strip() for x in l.split(":", 1)[1].split(",") if x.strip()]
    return []


def run_benign(prop, verbose=False):
    """benign/<name>.patch: behaviour-preserving (or correct) edits on which the checks listed in
    the `# silent:` header must stay silent - the no-false-alarm side of the self-test."""
    d = os.path.join(VERIF, "benign")
    out = []
    if not os.path.isdir(d):
        return out
    work = []
    for f in sorted(os.listdir(d)):
        if not f.endswith(".patch"):
            continue
        path = os.path.join(d, f)
        only = {}
        for item in parse_header(path, "only"):
            # `# only: C11=C11.1` : check C11 may report keys of rule C11.1 only (a known finding that moved)
            k, _, v = item.partition("=")
            only[k.strip()] = v.strip()
        if prop not in parse_header(path, "silent") and prop not in only:
            continue
        work.append((f, path, only))

    def one(w):
        f, path, only = w
        r = run_patch(prop, path, verbose, expect=["\0never"], label="benign/" + f)
        r["kind"] = "benign"
        if r["status"] == "MISSED":
            r["status"] = "silent"
        elif r["status"] in ("caught", "caught-by-other-rule"):
            if prop in only and r.get("fired") and all(k.startswith(only[prop]) for k in r["fired"]):
                r["status"] = "silent"
                r["note"] = "reports only %s (a recorded finding that this edit moves to another function)" % only[prop]
            else:
                r["status"] = "FALSE-ALARM"
        return r
    return _pmap(one, work)


def seeded_for(prop):
    """seeded/<id>/meta.json entries for a property: (dir, meta)"""
    d = os.path.join(VERIF, "seeded")
    out = []
    if not os.path.isdir(d):
        return out
    for n in sorted(os.listdir(d)):
        mp = os.path.join(d, n, "meta.json")
        if not os.path.exists(mp):
            continue
        with open(mp) as f:
            meta = json.load(f)
        # a change that only a sibling property's check reports is re-run under that check (`self_test_property`)
        if (meta.get("self_test_property") or meta.get("property")) == prop:
            out.append((os.path.join(d, n), meta))
    return out


def run_seeded(prop, verbose=False):
    """Seeded breaking changes written by independent authors (seeded/<id>/patch.diff).  Those
    whose meta.json says the static rules decide them (`caught_by`) must be reported."""
    def one(dm):
        d, meta = dm
        exp = meta.get("caught_by") or []
        if not exp:
            return {"patch": "seeded/" + os.path.basename(d), "status": "outside-static-reach", "kind": "seeded", "expected": []}
        # patch.diff is the author's patch against the commit it was written for; when a later fix: commit
        # touches the same lines, patch.rebased.diff carries the same change on top of the current tree
        pf = os.path.join(d, "patch.rebased.diff")
        if not os.path.exists(pf):
            pf = os.path.join(d, "patch.diff")
        r = run_patch(prop, pf, verbose, expect=exp, label="seeded/" + os.path.basename(d))
        r["kind"] = "seeded"
        return r
    return _pmap(one, seeded_for(prop))


if __name__ == "__main__":
    a = sys.argv[1:]
    if not a:
        print(__doc__)
        sys.exit(2)
    if a[0] == "scratch":
        print(scratch(a[1]))
    elif a[0] == "drop":
        drop(a[1])
    elif a[0] == "diff":
        mkdiff(a[1], a[2], a[3])
    elif a[0] == "run":
        res = run(a[1], a[2:], verbose="-v" in a)
        print(json.dumps(res, indent=1))
        sys.exit(0 if all(r["status"] == "caught" for r in res) else 1)
    elif a[0] == "benign":
        res = run_benign(a[1], verbose="-v" in a)
        print(json.dumps(res, indent=1))
        sys.exit(0 if all(r["status"] == "silent" for r in res) else 1)
    elif a[0] == "seeded":
        res = run_seeded(a[1], verbose="-v" in a)
        print(json.dumps(res, indent=1))
        sys.exit(0 if all(r["status"] in ("caught", "outside-static-reach") for r in res) else 1)
    elif a[0] == "runall":
        allres = {}
        bad = 0
        props = sorted(set(os.listdir(os.path.join(VERIF, "mutants"))) | {m.get("property") for d_, m in
                       [(d0, json.load(open(os.path.join(VERIF, "seeded", d0, "meta.json")))) for d0 in os.listdir(os.path.join(VERIF, "seeded"))
                        if os.path.exists(os.path.join(VERIF, "seeded", d0, "meta.json"))]})
        for prop in props:
            res = (run(prop, []) if os.path.isdir(os.path.join(VERIF, "mutants", prop)) else []) + run_seeded(prop) + run_benign(prop)
            allres[prop] = res
            for r in res:
                print(prop, r["patch"], r["status"], flush=True)
                if r["status"] not in ("caught", "silent", "outside-static-reach"):
                    bad += 1
        sys.exit(1 if bad else 0)
