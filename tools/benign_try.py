#!/usr/bin/env python3
"""tools/benign_try.py <patch> [<prop> ...]
Applies a (supposedly behaviour-preserving) patch to a scratch copy of /repo and runs the checks of
all engine properties (or the listed ones) on it.  Prints every unlisted violation: each one is a
false alarm to be corrected in the machinery, or evidence that the patch does change behaviour."""
import json, os, subprocess, sys
sys.path.insert(0, os.path.dirname(os.path.abspath(__file__)))
import mutants as mt

ENGINE = ["C01", "C02", "C03", "C04", "C05", "C06", "C07", "C09", "C10", "C11", "C12", "C13", "C14", "C15", "C16", "C17"]


def main():
    patch = sys.argv[1]
    props = sys.argv[2:] or ENGINE
    name = "ben-%d" % os.getpid()
    dst = mt.scratch(name)
    out = {}
    try:
        p = subprocess.run(["patch", "-p1", "-s", "-f", "-d", dst, "-i", patch], stdout=subprocess.PIPE, stderr=subprocess.STDOUT, text=True)
        if p.returncode != 0:
            print("PATCH-FAILED", p.stdout[-400:])
            return 2
        for prop in props:
            env = dict(os.environ, VERIF_REPO=dst, VERIF_INNER="1", VERIF_TIER="quick", VERIF_EVIDENCE_DIR=os.path.join(mt.SCR, "ev-" + name))
            q = subprocess.run([os.path.join(mt.VERIF, "check"), prop], stdout=subprocess.PIPE, stderr=subprocess.PIPE, text=True, env=env, cwd=mt.VERIF)
            fired = []
            try:
                ev = json.load(open(os.path.join(mt.SCR, "ev-" + name, prop + ".json")))
                fired = ev["coverage"].get("unlisted_violations", [])
            except Exception:
                pass
            if q.returncode == 2:
                print("==", prop, "exit 2 (does not compile / checker error):", q.stderr[-600:])
            elif q.returncode != 0 or fired:
                print("==", prop, "ALARM", fired)
                for l in q.stdout.splitlines():
                    if l.strip().startswith("rule "):
                        print("     ", l.strip()[:420])
            out[prop] = (q.returncode, fired)
        quiet = [p_ for p_, (rc, f) in out.items() if rc == 0 and not f]
        print("silent:", ",".join(quiet))
    finally:
        mt.drop(name)
    return 0


if __name__ == "__main__":
    sys.exit(main())
