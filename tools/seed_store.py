#!/usr/bin/env python3
"""tools/seed_store.py <worktree> <seed-id> <verdict> <caught_by csv> <reported keys csv> <confirmed text> [<strengthening text>]
copies SEED/{patch.diff,demo_test.rs,meta.json} to seeded/<seed-id>/ and extends meta.json"""
import json, os, shutil, sys
wt, sid, verdict, caught, keys, conf = sys.argv[1:7]
strength = sys.argv[7] if len(sys.argv) > 7 else None
V = os.path.join(os.path.dirname(os.path.dirname(os.path.abspath(__file__))), "seeded")
src = os.path.join(wt, "SEED")
d = os.path.join(V, sid)
os.makedirs(d, exist_ok=True)
for f in ("patch.diff", "demo_test.rs"):
    if os.path.exists(os.path.join(src, f)):
        shutil.copy(os.path.join(src, f), os.path.join(d, f))
if os.path.isdir(os.path.join(src, "harness")):
    shutil.rmtree(os.path.join(d, "harness"), ignore_errors=True)
    shutil.copytree(os.path.join(src, "harness"), os.path.join(d, "harness"), ignore=shutil.ignore_patterns("target"))
m = json.load(open(os.path.join(src, "meta.json")))
pid = m["property"]
m.update({"id": sid, "trigger": m.get("needs_to_manifest"), "base_commit": os.environ.get("SEED_BASE", "87d2907"),
          "author": "independent sub-agent (given only the property text and a scratch worktree)",
          "confirmed_here": conf, "static_verdict": verdict,
          "caught_by": [x.strip() for x in caught.split(",") if x.strip()],
          "reported_keys": [x.strip() for x in keys.split(";") if x.strip()],
          "how_to_rerun": "git -C /repo apply /verif/seeded/%s/patch.diff; ./check %s; git -C /repo checkout -- ." % (sid, pid)})
if strength:
    m["strengthening"] = strength
json.dump(m, open(os.path.join(d, "meta.json"), "w"), indent=1)
print(d)
