#!/usr/bin/env python3
"""Regenerates the machine-derived blocks of DESIGN.md (between <!-- GEN:x --> markers):
  rules     the rule texts as implemented (RULES of rules/cXX.py)
  findings  known / fixed findings (known_findings.json)
  mutants   self-test mutants and the rule each must trip (mutants/*/*.patch headers)
  seeded    independently written breaking changes (seeded/*/meta.json) and what catches them
Everything else in DESIGN.md is written by hand."""
import importlib
import json
import os
import re
import sys

VERIF = os.path.dirname(os.path.dirname(os.path.abspath(__file__)))
sys.path.insert(0, VERIF)

PROPS = ["C%02d" % i for i in range(1, 26) if i not in (8, 19)]


def gen_rules():
    out = []
    for p in PROPS:
        m = importlib.import_module("rules.%s" % p.lower())
        doc = (m.__doc__ or "").strip().split("\n")[0]
        out.append("**%s**" % doc.rstrip("."))
        out.append("")
        for k, v in m.RULES.items():
            out.append("* `%s` — %s" % (k, v))
        out.append("")
    return "\n".join(out)


def gen_findings():
    with open(os.path.join(VERIF, "known_findings.json")) as f:
        fs = json.load(f)["findings"]
    out = ["| property | status | key | what | commit |", "|---|---|---|---|---|"]
    for x in sorted(fs, key=lambda x: (x["property"], x["status"], x["key"])):
        out.append("| %s | %s | `%s` | %s | %s |" % (x["property"], x["status"], x["key"], x["what"].replace("|", "/"), x.get("commit", "") or ""))
    return "\n".join(out)


def gen_mutants():
    out = ["| property | mutant | rule that must fire | what the mutant does |", "|---|---|---|---|"]
    root = os.path.join(VERIF, "mutants")
    for p in sorted(os.listdir(root)):
        for f in sorted(os.listdir(os.path.join(root, p))):
            if not f.endswith(".patch"):
                continue
            exp = about = ""
            with open(os.path.join(root, p, f)) as fh:
                for l in fh:
                    if l.startswith("# expect:"):
                        exp = l.split(":", 1)[1].strip()
                    elif l.startswith("# about:"):
                        about = l.split(":", 1)[1].strip()
                    elif not l.startswith("#"):
                        break
            out.append("| %s | %s | %s | %s |" % (p, f.replace(".patch", ""), exp, about.replace("|", "/")))
    return "\n".join(out)


def _short(t, n=260):
    t = " ".join(str(t or "").replace("|", "/").split())
    return t if len(t) <= n else t[:n - 1].rsplit(" ", 1)[0] + " ..."


def gen_benign():
    root = os.path.join(VERIF, "benign")
    out = ["| patch | checks that must stay silent | what it does |", "|---|---|---|"]
    if os.path.isdir(root):
        for f in sorted(os.listdir(root)):
            if not f.endswith(".patch"):
                continue
            sil = about = ""
            with open(os.path.join(root, f)) as fh:
                for l in fh:
                    if l.startswith("# silent:"):
                        sil = l.split(":", 1)[1].strip()
                    elif l.startswith("# about:"):
                        about = l.split(":", 1)[1].strip()
            out.append("| %s | %s | %s |" % (f.replace(".patch", ""), sil, about.replace("|", "/")))
    return "\n".join(out)


def gen_seeded():
    root = os.path.join(VERIF, "seeded")
    out = ["| id | property | what the change does | needs to manifest | static verdict | rules that report it |", "|---|---|---|---|---|---|"]
    if os.path.isdir(root):
        for n in sorted(os.listdir(root)):
            mp = os.path.join(root, n, "meta.json")
            if not os.path.exists(mp):
                continue
            with open(mp) as f:
                m = json.load(f)
            out.append("| %s | %s | %s | %s | %s | %s |" % (
                n, m.get("property"), _short(m.get("summary")), _short(m.get("trigger")),
                m.get("static_verdict", "?"), ", ".join(m.get("reported_keys") or m.get("caught_by") or []) or (m.get("why_not") or "")))
    return "\n".join(out)


def gen_tally():
    import collections
    root = os.path.join(VERIF, "seeded")
    c = collections.Counter()
    per = collections.defaultdict(collections.Counter)
    for n in sorted(os.listdir(root)):
        mp = os.path.join(root, n, "meta.json")
        if os.path.exists(mp):
            with open(mp) as f:
                m = json.load(f)
            c[m.get("static_verdict", "?")] += 1
            per[m.get("property")][m.get("static_verdict", "?")] += 1
    out = ["| verdict | seeds |", "|---|---|"]
    for k, v in sorted(c.items()):
        out.append("| %s | %d |" % (k, v))
    out.append("| total | %d |" % sum(c.values()))
    out.append("")
    out.append("Per property: " + "; ".join("%s %s" % (p, ", ".join("%d %s" % (v, k) for k, v in sorted(cc.items()))) for p, cc in sorted(per.items())) + ".")
    nb = len([f for f in os.listdir(os.path.join(VERIF, "benign")) if f.endswith(".patch")])
    nm = sum(len([f for f in os.listdir(os.path.join(VERIF, "mutants", d)) if f.endswith(".patch")]) for d in os.listdir(os.path.join(VERIF, "mutants")))
    out.append("")
    out.append("Self-test corpus: %d mutants (`mutants/`), %d seeds (`seeded/`), %d behaviour-preserving patches (`benign/`)." % (nm, sum(c.values()), nb))
    return "\n".join(out)


GENS = {"tally": gen_tally, "benign": gen_benign, "rules": gen_rules, "findings": gen_findings, "mutants": gen_mutants, "seeded": gen_seeded}


def main():
    path = os.path.join(VERIF, "DESIGN.md")
    s = open(path).read()
    for name, fn in GENS.items():
        pat = re.compile(r"(<!-- GEN:%s -->\n).*?(<!-- /GEN:%s -->)" % (name, name), re.S)
        if not pat.search(s):
            sys.stderr.write("marker GEN:%s not found in DESIGN.md\n" % name)
            continue
        body = fn()
        s = pat.sub(lambda m: m.group(1) + body + "\n" + m.group(2), s)
    open(path, "w").write(s)


if __name__ == "__main__":
    main()
