#!/bin/bash
# usage: mkbenign.sh <name> "<silent props>" "<about>"   (scratch copy must exist at /var/tmp/wv-scratch/<name>, already edited)
name=$1
cd /var/tmp/wv-scratch && diff -ruN --exclude=target --exclude=.git --exclude=wal_files --exclude=figures --exclude=rocksdb_benchmark_db --exclude='*.csv' --exclude=benchmarks /repo $name | sed -e 's#^--- /repo/#--- a/#; s#^+++ '$name'/#+++ b/#; /^diff -ruN/d' > /tmp/$name.patch
(printf '# silent: %s\n# about: %s\n' "$2" "$3"; cat /tmp/$name.patch) > /verif/benign/$name.patch; rm /tmp/$name.patch
cd /verif && python3 tools/mutants.py drop $name
