#!/usr/bin/env python3
"""Confirm a seeded breaking change written by an independent author, then try the checks on it.

  tools/seed_confirm.py confirm <worktree> [--tests unit,integration,...] [--lib]
        in the scratch worktree: reset src/ to HEAD, apply SEED/patch.diff, build, run the demo
        (must FAIL), run the listed existing tests (must PASS), revert, run the demo (must PASS).
  tools/seed_confirm.py try <seed-dir-or-worktree/SEED> <prop> [<prop> ...]
        git -C /repo apply patch; ./check <prop> for each; git -C /repo checkout -- . ; prints keys.
  tools/seed_confirm.py store <worktree> <id>
        copy SEED/{patch.diff,demo_test.rs,meta.json} to /verif/seeded/<id>/
"""
import json
import os
import shutil
import subprocess
import sys

VERIF = os.path.dirname(os.path.dirname(os.path.abspath(__file__)))
REPO = "/repo"


def sh(cmd, cwd=None, env=None, timeout=3600):
    e = dict(os.environ)
    e.update({"CARGO_NET_OFFLINE": "true", "WALRUS_QUIET": "1"})
    if env:
        e.update(env)
    p = subprocess.run(cmd, cwd=cwd, env=e, stdout=subprocess.PIPE, stderr=subprocess.STDOUT, text=True, shell=isinstance(cmd, str), timeout=timeout)
    return p.returncode, p.stdout


def confirm(wt, tests, lib):
    seed = os.path.join(wt, "SEED")
    patch = os.path.join(seed, "patch.diff")
    demo = os.path.join(seed, "demo_test.rs")
    res = {}
    for f in (patch, demo, os.path.join(seed, "meta.json")):
        if not os.path.exists(f):
            print("missing", f)
            return 2
    sh("git checkout -- src", cwd=wt)
    rc, out = sh(["git", "apply", "--check", patch], cwd=wt)
    if rc != 0:
        print("patch does not apply to a clean checkout:\n" + out)
        return 2
    shutil.copy(demo, os.path.join(wt, "tests", "seed_demo.rs"))
    # without the patch: demo passes
    rc, out = sh("cargo test --offline --test seed_demo 2>&1 | tail -25", cwd=wt)
    res["demo_without_patch"] = "test result: ok" in out and "FAILED" not in out
    print("== demo without patch:", "PASS" if res["demo_without_patch"] else "FAIL")
    if not res["demo_without_patch"]:
        print(out)
    sh(["git", "apply", patch], cwd=wt)
    rc, out = sh("cargo test --offline --test seed_demo 2>&1 | tail -40", cwd=wt)
    res["demo_with_patch_fails"] = ("FAILED" in out or "panicked" in out) and "error[" not in out and "could not compile" not in out
    print("== demo with patch:", "FAILS (as required)" if res["demo_with_patch_fails"] else "does not fail / does not compile")
    print(out[-1800:])
    ok_tests = True
    for t in tests:
        rc, out = sh("cargo test --offline --test %s 2>&1 | grep -E 'test result|FAILED|failed|error' | head -8" % t, cwd=wt)
        good = "test result: ok" in out and "FAILED" not in out
        print("== existing --test %s with patch:" % t, "PASS" if good else "FAIL", out.strip().replace("\n", " / ")[:300])
        ok_tests &= good
    if lib:
        rc, out = sh("cargo test --offline --lib 2>&1 | grep -E 'test result|FAILED|failed|error' | head -8", cwd=wt)
        good = "test result: ok" in out and "FAILED" not in out
        print("== existing --lib with patch:", "PASS" if good else "FAIL", out.strip().replace("\n", " / ")[:300])
        ok_tests &= good
    res["existing_tests_pass"] = ok_tests
    sh("git checkout -- src", cwd=wt)
    print(json.dumps(res))
    return 0 if all(res.values()) else 1


def try_checks(seed, props):
    patch = os.path.join(seed, "patch.diff")
    rc, out = sh(["git", "-C", REPO, "status", "--porcelain", "--untracked-files=no"])
    if out.strip():
        print("/repo has local changes, refusing:\n" + out)
        return 2
    rc, out = sh(["git", "-C", REPO, "apply", patch])
    if rc != 0:
        print("apply failed:\n" + out)
        return 2
    try:
        for p in props:
            evdir = "/var/tmp/wv-scratch/ev-seedtry"
            rc, out = sh([os.path.join(VERIF, "check"), p], cwd=VERIF, env={"VERIF_EVIDENCE_DIR": evdir})
            keys = []
            try:
                with open(os.path.join(evdir, p + ".json")) as f:
                    keys = json.load(f)["coverage"]["unlisted_violations"]
            except Exception:
                pass
            print("== %s exit=%d unlisted=%s" % (p, rc, keys))
            for l in out.splitlines():
                if l.startswith("  rule") or "CHECKER" in l:
                    print("   ", l[:400])
            shutil.rmtree(evdir, ignore_errors=True)
    finally:
        sh(["git", "-C", REPO, "checkout", "--", "."])
    return 0


def store(wt, sid):
    d = os.path.join(VERIF, "seeded", sid)
    os.makedirs(d, exist_ok=True)
    for f in ("patch.diff", "demo_test.rs", "meta.json"):
        shutil.copy(os.path.join(wt, "SEED", f), os.path.join(d, f))
    print(d)


if __name__ == "__main__":
    a = sys.argv[1:]
    if not a:
        print(__doc__)
        sys.exit(2)
    if a[0] == "confirm":
        tests = []
        lib = "--lib" in a
        if "--tests" in a:
            tests = a[a.index("--tests") + 1].split(",")
        sys.exit(confirm(a[1], tests, lib))
    if a[0] == "try":
        sys.exit(try_checks(a[1], a[2:]))
    if a[0] == "store":
        store(a[1], a[2])
