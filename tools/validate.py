#!/opt/veriftools/pyvenv/bin/python
import json, glob, sys, jsonschema
m=json.load(open('/verif/MANIFEST.json')); s=json.load(open('/root/.vp/MANIFEST.schema.json')); jsonschema.validate(m,s); print('manifest valid')
es=json.load(open('/root/.vp/EVIDENCE.schema.json'))
for f in sorted(glob.glob('/verif/evidence/C*.json')):
    jsonschema.validate(json.load(open(f)),es); print(f,'valid')
