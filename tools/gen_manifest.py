#!/usr/bin/env python3
"""Regenerates MANIFEST.json from the table below (keeps it valid at all times)."""
import json
import os

VERIF = os.path.dirname(os.path.dirname(os.path.abspath(__file__)))

MIR_NOTE = ("Trusted: rustc's MIR construction and callee resolution on the pre-installed nightly, the mirfacts extractor, "
            "the frozen exception/allow tables in the rule module (each row carries its reason), std-library semantics named in the evidence assumptions. "
            "Only the linux cfg / default features of the crate are analysed. The check decides the structural clauses listed, not the whole behavioural property.")
AST_NOTE = ("Trusted: syn's parser and the astfacts extractor. The crate cannot be type-checked offline (tokio, bincode, quinn ... are not in the sandbox), so the rule works on the "
            "syntax tree of the named functions with names that are unambiguous in the file and fails closed when an anchor is missing. Decides the listed structural clauses only.")

CHECKS = {}
NA = {}


def claim(pid, technique, text, note=MIR_NOTE, engine="mir", design="4"):
    CHECKS[pid] = dict(technique=technique, text=text, note=note, engine=engine, design=design)


def na(pid, reason):
    NA[pid] = reason


# ---- table -----------------------------------------------------------------------------------
claim("C02", "MIR effect analysis + edge dominance + taint",
      "Static effect analysis over type-checked MIR: every mutation of cursor state, persisted index, entry counts, reclamation trackers, deletion channel or files that is reachable "
      "from read_next / batch_read_for_topic must be edge-dominated by checkpoint==true (and start_offset==None); the offset-addressed arm is read-only by type; the returned value is "
      "non-interfering with `checkpoint` (locals-only taint). Holds for every input and schedule because it is a property of all CFG paths; it does not decide the value-level clause about "
      "offset-addressed reads returning only appended bytes. Also: the tail carry-over at sealing is keyed on the cursor's tail block being the sealed block (nothing a peek can reach).", design="4/C02")
claim("C03", "MIR must-pass-through on CFG + def-use + only-allowed-bypass",
      "Cap and budget clauses are decided for every input: pushes into the returned vector are cut off from entry and from each other when the cap/budget pass edges are removed "
      "(must-pass-through on the MIR CFG), the constant is evaluated, and the running total's definitions are enumerated. Of the progress clause only a structural part is decided: with nothing planned yet, the planned range is widened to the "
      "size announced by the header at the cursor, and the branches that may bypass the widening are enumerated (C03.3); a budget stop ends the batch (C03.4: no push reachable from the stop edge, "
      "boolean flags taken at their value); the planner arithmetic over runtime sizes is not decided. Also: the batch read fails (Err) only on a failed completion or a checksum mismatch, never on an entry cut by the budget; the room test that may skip the first-entry widening is strict.", design="4/C03, 10.1")
claim("C14", "abstract interpretation over char partition + who-may-push",
      "Decides the property for all key strings at the level of path components: exact image of the sanitizer closure over a finite partition of char, fallback-discipline obligations, "
      "and a who-may-push rule over every PathBuf::push/Path::join in the crate: pushes live in the path manager only and the operand is the sanitizer's result through views and "
      "copies only (any transformation applied after the sanitizer is reported), a timestamp or a literal.", design="4/C14, 10.1")

claim("C01", "MIR must-pass-through + sibling agreement of header tables + dominance + only-allowed-bypass",
      "Decides seven structural clauses for every input: (1) every entry a consuming read counts as consumed (cursor advance, count decrement) is handed to the caller - must-pass-through "
      "between the per-entry counter and the push, with offset-addressed-only edges derived from the code; read_next's cursor commits are followed by the return of the entry just read; "
      "(2) the two encoders and seven decoders agree on the header tables (symbolic expressions reconstructed from MIR); (3) every Entry construction is dominated by the checksum-equal edge; (4) the first planned range of a batch read is widened to the entry at the cursor (shared with C03.3); (5) both paths of Reader::append_block_to_chain carry a tail position "
      "over to the sealed chain identically and only under tail_block_id == block.id; (6) once the batch parser has stopped for the byte budget (entry does not fit, or the planned range was cut in front of / inside an entry) nothing more is pushed (shared with C03.4); "
      "(7) every step to the next block of the chain - read_next's advance, the batch planner's index, the batch parser's committed position (followed through the commit closure) - is taken only under `offset reached >= block.used` (the planner: only after a range planned to the end of the block). "
      "Ordering, once-only delivery across blocks and the planner/budget interaction are not decided. Also: the two halves of the batch cursor are assigned together and the commit sets the cursor to exactly the reached position; the checksum of the empty payload is the fold's non-zero start value.", design="4/C01")
claim("C04", "MIR path rules over Ok/Err edges (NOEXIT, must-not-reach), error discipline",
      "Decides for all inputs and failure points the shape conditions of 'failed appends leave no trace': no exit between sealing a block and installing its successor, rejections precede "
      "every effect, publish stores are unreachable from failed writes/flushes and nothing can fail after a publish, error exits after the first effect pass rollback+unlock (infeasible exits tabled), "
      "every rollback after a write/submit is preceded by the zeroing of every planned header (loop rule), rollback restores the block, storage write results are not discarded, both encoders have the header-length guard, the batch flag guard is built right after the CAS. "
      "Known findings are listed by key in known_findings.json. Also: the single-entry reader accepts every entry the batch writer placed (comparison inventory of Block::read).", design="4/C04")
claim("C12", "MIR who-may-call tables + finite evaluation of the readiness predicate + control dependence",
      "Decides who may delete files and request deletions, the exact readiness predicate of flush_check (evaluated over its sub-CFG on a finite abstract domain), the dominance conditions "
      "of every consumed-mark site (a block is marked only when a position the consumer has really reached - the cursor's own offset, or in a consuming read_next that offset plus the entry "
      "just read - is at the block's end; a planned end of range does not count) and the idempotence of marks (control dependence of the counter increment on an atomic RMW of the per-block flag). 'Durably consumed' under AtLeastOnce is not decided. Also: a block is registered under the file it lives in (no rollover between registration and hand-out).",
      design="4/C12")
claim("C15", "MIR who-may-write + edge dominance + dataflow roles",
      "Decides the in-process clause for all inputs: writers of the count map, increments only after a successful append by exactly the appended number, decrements only under "
      "checkpoint (and stateful) by exactly the number of parsed entries, deliveries and decrements paired by must-pass-through. Of the recount after restart only a must-depend clause is decided (every table index and the partial-block count depend "
      "on the persisted (block, offset) pair, by data or unshared control dependence, and the persisted block is searched by id over the whole recovered chain); its arithmetic is not. Also: the recovery scan counts every entry it accepts (the recount's input), and the persisted tail block is looked up with a forward index.", design="4/C15, 10.1")
claim("C16", "MIR sibling agreement via symbolic expression reconstruction + ring-lifetime dataflow",
      "Decides agreement of the sibling implementations: the two entry encoders (field sources, serializer, prefix encoding, ranges, guard), the three read-range builders and exhaustive "
      "two-arm backend dispatch, and that the io_uring path keeps no queue state across batches (the ring is created in the call and sized from the plan, or a missing completion is a failure). "
      "Equality of results over operation sequences is not decided. Also: each io_uring operation is built on the descriptor of its own planned range's block.", design="4/C16, 10.1")

claim("C05", "MIR RMW rule on slices with lock-guard provenance + truth table of the hold flag",
      "Schedules are not enumerated. The check decides, for every path, the absence of the atomicity-violation shapes that make duplicate delivery possible: a cursor commit computed "
      "from state read under another acquisition of the column lock, and a consuming stateful batch read that releases its guard between planning and commit (hold flag truth table "
      "evaluated over its defining sub-CFG for all valuations of consistency - including the payload of AtLeastOnce -, checkpoint and start_offset); and on the producer side that Writer::write and Writer::batch_write hold the current_block and current_offset guards taken before planning until after their last storage write (no release point reaches a write). Ordering between producers and fairness are not decided. Also: a block is never both sealed and active (no exit between sealing and installing the successor, shared with C04.1).", design="4/C05")
claim("C09", "MIR only-allowed-bypass between commit and persist + reaching stores + finite evaluation + ORD",
      "Decides persist-before-return for StrictlyAtOnce as a path property: from each cursor commit the persisted-index write can be bypassed only by the should_persist verdict, "
      "checkpoint=false or a poisoned lock, and every WalIndex method used to record the position persists on all of its paths; the (index, offset) pair that is packaged for the "
      "index equals the cursor at that point (reaching-stores analysis); a provisional tail position is never persisted behind the reader's in-memory progress (constant 0 only under "
      "tail_block_id != active block); a persisted position is mapped back to a chain index by a search by block id, never by place; should_persist's strict arm is evaluated; the batch commit closure's persist flag/target obligations; write-fsync-rename order of the index. "
      "Tail ids versus recovery's synthetic ids and the AtLeastOnce redelivery bound are not decided. Also: the recovery entry scan stays inside one unit and the allocator reserves exact round-ups, so that a persisted (block id, offset) means the same entries after a restart.", design="4/C09")
claim("C10", "MIR ordering / must-pass-through of sync calls on acknowledgement paths",
      "'Sync before acknowledging' decided on every path: SyncEach arm of the single append, flush loops of both batch paths, seal-after-flush, the call-graph link from "
      "SharedMmap::flush to the kernel sync of each backend, the creation protocol of new WAL files and tmp-fsync-rename-dirfsync of the two small stores. Replay of arbitrary "
      "subsets of unsynced writes is not decided. Also: the handle flushed is the one of the block written after any rotation, and allocations are exact round-ups (recovery re-derives the block ids the durable positions use).", design="4/C10")
claim("C17", "MIR call-graph must-reach with only-allowed-bypass + state-machine obligations",
      "Decides that a clean shutdown (Drop of Walrus) synchronously reaches the marker store's fsync+rename on all paths with a snapshot of all topic states, that appends mark dirty "
      "before anything can fail, that the marker state machine stores/loads the same atomic, that every update handed to the store is merged into the map that is written (loop rule), "
      "and the atomic-replace protocol of the marker file.", design="4/C17, 10.1")

claim("C06", "MIR sibling agreement of layout tables + natural-loop exit and loop-bound rules",
      "Decides three structural clauses for every input: the allocator's block layout (limit, offset step) equals the recovery scan's (limit = stride = DEFAULT_BLOCK_SIZE), and the "
      "per-file unit loop of recovery has no exit other than its condition (an unreadable unit is skipped, never ends the scan), and the entry scan of one unit is bounded by the unit (it cannot iterate without comparing its read offset with the "
      "stride); a persisted tail position (TAIL_FLAG | block id) is translated into a chain position by the block's identity, searched over the whole chain, never by its place (shared with C09.3). Counts "
      "after restart and clock regression are not decided.", design="4/C06")
claim("C07", "MIR dominance along the resolved call chain + plan completeness + verified-reader dataflow + error-source table",
      "Ack-after-write decided on all paths from the public append APIs down to the positional write of each backend, plan completeness/element agreement in both batch paths, and that "
      "the recovery scan advances only by sizes returned by checksum-verified readers (a torn, never-acknowledged entry is not counted into a block), and "
      "every error exit of the open path originates from a filesystem call or lock (never from decoding file contents). What recovery reconstructs is covered only by C06's clauses. Also: a rolled-back batch leaves no parseable entry behind (every planned header zeroed, shared with C04.3d), and no read-side code consults the block limit that recovery re-creates differently.",
      design="4/C07")
claim("C11", "MIR panic-freedom enumeration with discharge rules/table + who-may-call + dominance of length bounds",
      "Enumerates every potential panic site (Assert terminators, unwrap/expect, indexing, slice copies, allocations) in the call-graph closure of the open path and discharges each by "
      "a dominance/interval rule or a reasoned table row; forbids unvalidated rkyv roots on file bytes (9 known findings listed); requires a dominating bound for every use of the "
      "on-disk length; checksum gate. Hangs and mis-association of valid-looking foreign entries are not decided. Also: the cursor / marker files are replaced atomically from a truncated temporary, so a leftover temporary cannot leak into what the next open parses; the checksum of an empty payload is non-zero, so a zeroed header does not verify.", design="4/C11")
claim("C13", "static inventory + interprocedural key provenance + who-may-call for filesystem sinks",
      "Decides which process-global state exists (inventory of interior-mutable statics against a reasoned table), that global maps - the two trackers and the mapping cache - are keyed by the whole root-derived path, through views and copies only (one known finding), "
      "and that filesystem access is confined to triaged functions with root-derived operands. Observable interference itself is not decided.", design="4/C13")

claim("C18", "MIR (stub harness) panic-freedom + def-use/ordering invariants + written lemma",
      "The real metadata.rs is type-checked with stub dependencies and analysed on MIR: every panic obligation of apply/snapshot/restore is discharged or reported (operands sliced to "
      "the decoded command can never be discharged), and seven structural invariants of apply are decided for all paths; with the lemma in the evidence they give contiguity 1..current, "
      "immutability of sealed entries (the history maps are reached mutably only through insert), leader consistency and offset = sum of counts for every command sequence. Also: apply is all-or-nothing (no Err exit behind the first change to the state).", design="4/C18",
      note=MIR_NOTE + " distributed-walrus cannot be built offline; harness/dwshim type-checks the real file against signature-only stubs whose faithfulness is checked (C18.3).")
claim("C20", "AST dataflow on the adapter + MIR type/whole-state obligations",
      "Decides where the adapter's snapshot bytes come from and what restore receives (two known findings), unconditional in-order forwarding of Normal entries, and that Metadata "
      "snapshot/restore are type-symmetric, whole-state and skip no field. The Raft snapshot transport is not decided. Also: what snapshot() returns is encoded in that call, or the field it is cached in is reset behind every state change.", note=AST_NOTE, engine="ast", design="4/C20")
claim("C21", "AST path rules + literal-argument rule backed by MIR effect, verified-reader and only-allowed-bypass analyses of the vendored engine",
      "Decides persist-before-acknowledge for every WalLogStore mutator, exhaustive replay of record kinds, the peer-address flag correlation, and that the recovery read is "
      "non-consuming (known finding: it is durably consuming, shown via the vendored engine's MIR); on the MIR of the vendored engine copy, that its recovery scan counts only checksum-verified records and that its batch read can get past a record larger than read_all's byte budget (known finding: it cannot). Contents after replay are not decided. Also (vendored engine): the two halves of the batch cursor that read_all's consecutive reads resume from are assigned together.", note=AST_NOTE, engine="ast", design="4/C21")
claim("C22", "AST path enumeration of bookkeeping pairings + must-pass-through of the lease refresh",
      "Only the bookkeeping pairings without which the property fails on every schedule: one count per acknowledged append before the rollover test, the sealed count proposed is the "
      "tracked count of that very segment, the reader's per-segment counter moves exactly with returned entries, every path of forward_append refreshes the leases before it appends, and the lease test and the engine append form one critical section (known finding, shared with C23.1: they do not; two concurrent PUTs at a threshold of 1 lose the second). The other interleaving clauses (duplicate rollovers, monitor timing) "
      "are explicitly not decided. Also decided: a failed (forwarded) read is never treated as an empty read, and whether a sealing names the segment it seals (known finding: it does not; two overlapping producers seal the next segment with the old count).", note=AST_NOTE, engine="ast", design="4/C22")
claim("C23", "AST structural check of the lease/write critical section + who-may-call",
      "Decides whether the lease test and the engine append form one critical section with respect to lease updates (two accepted idioms; known finding: check-then-lock-then-write), that "
      "every engine write goes through append_by_key under the bucket guard, and that every path of forward_append to the append has refreshed the leases first. Also decides that Storage::update_leases makes the lease set exactly the expected set (untouched only under set equality; otherwise unexpected leases dropped and every expected one added), and that the set handed to the bucket is not computed before an await (known finding).", note=AST_NOTE, engine="ast", design="4/C23")
claim("C24", "AST path enumeration of the frame loop + syntax-tree panic-site enumeration with typed discharge",
      "Enumerates every acyclic path of one iteration of the frame loop: body consumed or connection closed, exactly one response per frame, payload pass-through in the command parser; and no function of client.rs reachable from the frame loop, nor any NodeController method reachable from the calls it makes on the controller, contains an undischarged panic site (a str cut at a byte position, unbounded index, unwrap/expect, panic macros), since a panic of the connection task leaves that frame and all later ones unanswered. "
      "Holds for every byte stream because each path is covered; panics inside Storage / Metadata / octopii methods called from the controller are not followed.", note=AST_NOTE, engine="ast", design="4/C24")
claim("C25", "MIR (stub harness) codec obligations + written lemma",
      "Codec obligations on the MIR of wal_key / parse_wal_key (template bytes, argument order/types, resolved str methods with their literals, the symbolic expression of the result) "
      "plus the lemma in the evidence give parse(wal_key(t, s)) = (t, s) for all strings and all u64, hence injectivity. A who-may-use rule over the sources of the distributed layer shows that no other function builds or splits keys with the separator's text, so the lemma covers every encoder and decoder.", design="4/C25",
      note=MIR_NOTE + " controller/types.rs is type-checked through harness/dwshim.")

ALL = ["C%02d" % i for i in range(1, 26)]
PENDING = "check under construction in this round (planned in DESIGN.md section 4); not claimed until its rules exist and are calibrated"
for p in ALL:
    if p not in CHECKS and p not in NA:
        na(p, PENDING)
na("C08", "needs enumeration of crash points inside a batch; the code has no batch commit mechanism whose placement could be checked, and a rule demanding one would prescribe a design rather than decide the property (DESIGN.md section 5)")
na("C19", "agreement/liveness of the vendored openraft under crashes and message loss is a protocol property over schedules; openraft/octopii cannot be type-checked offline and no syntactic condition short of protocol verification is both necessary and informative (DESIGN.md section 5)")


def main():
    checks = []
    for pid in sorted(CHECKS):
        c = CHECKS[pid]
        checks.append({
            "property_id": pid,
            "quick_cmd": "./check %s --tier quick" % pid,
            "thorough_cmd": "./check %s --tier thorough" % pid,
            "evidence_file": "/verif/evidence/%s.json" % pid,
            "replay_cmd_template": "./check %s --explain {path}" % pid,
            "engine": c["engine"],
            "level_claimed": {"category": "other", "text": c["text"], "design_ref": "DESIGN.md section " + c["design"]},
            "level_note": c["note"],
            "technique": "static analysis: " + c["technique"],
        })
    m = {
        "version": 1,
        "setup_cmd": "./setup.sh",
        "hooks": {
            "guard": "walrus_verif",
            "enable": "none needed: the checks are static and execute nothing from /repo; no hook commits exist",
            "baseline_off_cmd": "cd /repo && cargo nextest run --workspace --no-fail-fast --test-threads 8 --offline || cargo test --workspace --no-fail-fast --offline",
            "source_commits": [],
            "add_only": True,
        },
        "engines": [
            {"name": "mir", "path": "tools/mirfacts + rules/", "serves_properties": sorted(p for p, c in CHECKS.items() if c["engine"] == "mir"),
             "kind_free_text": "rustc_private driver dumping type-checked MIR (resolved callees, CFG, places) as JSON; python rule evaluators (dominance, must-pass-through, slices, effect summaries, abstract interpretation)"},
            {"name": "ast", "path": "tools/astfacts + rules/", "serves_properties": sorted(p for p, c in CHECKS.items() if c["engine"] == "ast"),
             "kind_free_text": "syn-2 syntax-tree extractor for the crates that cannot be type-checked offline; path rules over structured statement trees"},
        ],
        "checks": checks,
        "not_applicable": [{"property_id": p, "reason": NA[p]} for p in sorted(NA) if p not in CHECKS],
        "notes": "Technique family: static analysis only. Every check re-extracts facts from /repo's current working tree (content-hash keyed), evaluates the rules, "
                 "matches violations against known_findings.json by exact key and writes evidence/<id>.json. See DESIGN.md.",
    }
    with open(os.path.join(VERIF, "MANIFEST.json"), "w") as f:
        json.dump(m, f, indent=1)
    print("MANIFEST.json: %d checks, %d not applicable" % (len(checks), len(m["not_applicable"])))


if __name__ == "__main__":
    main()
