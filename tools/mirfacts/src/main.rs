//! mirfacts: rustc_private driver that dumps type-checked MIR of the local crate
//! as one JSON document.  Used as RUSTC_WORKSPACE_WRAPPER under `cargo +nightly check`.
//!
//! Environment:
//!   MIRFACTS_CRATES  comma separated crate names to dump (others compile untouched)
//!   MIRFACTS_OUT     directory; file <crate>.json is written there (one write)
//!   MIRFACTS_NONCE   copied into the document so stale facts can be refused
#![feature(rustc_private)]
#![allow(clippy::all)]
extern crate rustc_abi;
extern crate rustc_driver;
extern crate rustc_hir;
extern crate rustc_interface;
extern crate rustc_middle;
extern crate rustc_span;

mod json;
use json::J;

use rustc_driver::Compilation;
use rustc_hir::def::DefKind;
use rustc_hir::def_id::{DefId, LOCAL_CRATE};
use rustc_middle::mir::{
    self, AggregateKind, BinOp, Body, BorrowKind, CastKind, Const, Operand, Place, PlaceElem,
    Rvalue, StatementKind, TerminatorKind, UnOp,
};
use rustc_middle::ty::{self, Instance, Ty, TyCtxt, TypingEnv};
use rustc_span::Span;

struct Cb;

fn span_json(tcx: TyCtxt<'_>, sp: Span) -> J {
    let sm = tcx.sess.source_map();
    let call = sp.source_callsite();
    let lo = sm.lookup_char_pos(call.lo());
    let hi = sm.lookup_char_pos(call.hi());
    let file = match &lo.file.name {
        rustc_span::FileName::Real(r) => match r.local_path() {
            Some(p) => p.to_string_lossy().into_owned(),
            None => format!("{:?}", lo.file.name),
        },
        other => format!("{:?}", other),
    };
    J::obj(vec![
        ("file", J::s(&file)),
        ("line", J::n(lo.line as i128)),
        ("col", J::n(lo.col.0 as i128)),
        ("hi_line", J::n(hi.line as i128)),
        ("exp", J::b(sp.from_expansion())),
    ])
}

fn line_of(tcx: TyCtxt<'_>, sp: Span) -> (i128, bool) {
    let sm = tcx.sess.source_map();
    let call = sp.source_callsite();
    let lo = sm.lookup_char_pos(call.lo());
    (lo.line as i128, sp.from_expansion())
}

struct Cx<'a, 'tcx> {
    tcx: TyCtxt<'tcx>,
    body: &'a Body<'tcx>,
    def_id: DefId,
    typing_env: TypingEnv<'tcx>,
}

impl<'a, 'tcx> Cx<'a, 'tcx> {
    fn ty_s(&self, t: Ty<'tcx>) -> String {
        format!("{}", t)
    }

    fn field_name(&self, base_ty: mir::PlaceTy<'tcx>, idx: usize) -> Option<String> {
        match base_ty.ty.kind() {
            ty::Adt(adt, _) => {
                let vidx = base_ty.variant_index.unwrap_or(rustc_abi::FIRST_VARIANT);
                if adt.is_enum() && base_ty.variant_index.is_none() {
                    return None;
                }
                let v = adt.variant(vidx);
                v.fields.iter().nth(idx).map(|f| f.name.to_string())
            }
            ty::Closure(did, _) => {
                let caps = self.tcx.closure_captures(did.expect_local());
                caps.get(idx).map(|c| c.var_ident.name.to_string())
            }
            _ => None,
        }
    }

    fn place(&self, p: &Place<'tcx>) -> J {
        let mut projs = Vec::new();
        for (base, elem) in p.iter_projections() {
            let bty = base.ty(self.body, self.tcx);
            let j = match elem {
                PlaceElem::Deref => J::s("*"),
                PlaceElem::Field(f, fty) => {
                    let mut v = vec![("f", J::n(f.index() as i128))];
                    if let Some(n) = self.field_name(bty, f.index()) {
                        v.push(("n", J::s(&n)));
                    }
                    let owner = match bty.ty.kind() {
                        ty::Adt(adt, _) => Some(self.tcx.def_path_str(adt.did())),
                        ty::Closure(..) => Some("{closure}".to_string()),
                        ty::Tuple(_) => Some("(tuple)".to_string()),
                        _ => None,
                    };
                    if let Some(o) = owner {
                        v.push(("o", J::s(&o)));
                    }
                    v.push(("t", J::s(&self.ty_s(fty))));
                    J::obj(v)
                }
                PlaceElem::Downcast(name, vidx) => J::obj(vec![
                    (
                        "d",
                        J::s(&name.map(|s| s.to_string()).unwrap_or_else(|| format!("{}", vidx.index()))),
                    ),
                    ("vi", J::n(vidx.index() as i128)),
                ]),
                PlaceElem::Index(l) => J::obj(vec![("i", J::n(l.index() as i128))]),
                PlaceElem::ConstantIndex { offset, min_length, from_end } => J::obj(vec![
                    ("ci", J::n(offset as i128)),
                    ("min", J::n(min_length as i128)),
                    ("from_end", J::b(from_end)),
                ]),
                PlaceElem::Subslice { from, to, from_end } => J::obj(vec![
                    ("sub", J::n(from as i128)),
                    ("to", J::n(to as i128)),
                    ("from_end", J::b(from_end)),
                ]),
                other => J::obj(vec![("x", J::s(&format!("{:?}", other)))]),
            };
            projs.push(j);
        }
        J::obj(vec![("l", J::n(p.local.index() as i128)), ("p", J::Arr(projs))])
    }

    fn konst(&self, c: &mir::ConstOperand<'tcx>) -> J {
        let ty = c.const_.ty();
        let mut v = vec![("k", J::s("const")), ("ty", J::s(&self.ty_s(ty)))];
        match ty.kind() {
            ty::FnDef(did, args) => {
                v.push(("fn", J::s(&self.tcx.def_path_str(*did))));
                v.push(("fn_generic", J::s(&self.tcx.def_path_str_with_args(*did, args))));
            }
            _ => {}
        }
        // scalar value
        let is_scalar_ty = ty.is_integral() || ty.is_bool() || ty.is_char();
        if is_scalar_ty {
            if let Some(si) = c.const_.try_eval_scalar_int(self.tcx, self.typing_env) {
                let size = si.size();
                let bits = si.to_bits(size);
                let val: i128 = if ty.is_signed() {
                    si.to_int(size)
                } else {
                    bits as i128
                };
                if ty.is_char() {
                    v.push(("val", J::n(bits as i128)));
                    if let Some(ch) = char::from_u32(bits as u32) {
                        v.push(("chr", J::s(&ch.to_string())));
                    }
                } else if bits > (i128::MAX as u128) && !ty.is_signed() {
                    v.push(("val_s", J::s(&format!("{}", bits))));
                } else {
                    v.push(("val", J::n(val)));
                }
            }
        }
        // string literal
        if let ty::Ref(_, inner, _) = ty.kind() {
            if inner.is_str() {
                if let Const::Val(cv, _) = c.const_ {
                    if let Some(bytes) = cv.try_get_slice_bytes_for_diagnostics(self.tcx) {
                        v.push(("str", J::s(&String::from_utf8_lossy(bytes))));
                    }
                }
            }
        }
        // named constant / static reference
        match c.const_ {
            Const::Unevaluated(uv, _) => {
                v.push(("def", J::s(&self.tcx.def_path_str(uv.def))));
                if let Some(pidx) = uv.promoted {
                    v.push(("promoted", J::b(true)));
                    // a promoted `&CONST` / `&"lit"`: report the string it refers to
                    if let Some(s) = self.promoted_str(uv.def, pidx) {
                        v.push(("str", J::s(&s)));
                        v.push(("str_via", J::s("promoted")));
                    }
                } else if let Some(s) = self.const_str(uv.def) {
                    v.push(("str", J::s(&s)));
                    v.push(("str_via", J::s("const")));
                }
            }
            _ => {}
        }
        if let Some(did) = c.check_static_ptr(self.tcx) {
            v.push(("static", J::s(&self.tcx.def_path_str(did))));
        }
        v.push(("dbg", J::s(&format!("{}", c.const_))));
        J::obj(v)
    }

    /// value of a `const X: &str` item
    fn const_str(&self, did: rustc_hir::def_id::DefId) -> Option<String> {
        let ty = self.tcx.type_of(did).instantiate_identity().skip_norm_wip();
        if let ty::Ref(_, inner, _) = ty.kind() {
            if inner.is_str() {
                if let Ok(val) = self.tcx.const_eval_poly(did) {
                    if let Some(bytes) = val.try_get_slice_bytes_for_diagnostics(self.tcx) {
                        return Some(String::from_utf8_lossy(bytes).to_string());
                    }
                }
            }
        }
        None
    }

    /// string behind a promoted `&<str constant>` (`_1 = const X; _0 = &_1`)
    fn promoted_str(&self, did: rustc_hir::def_id::DefId, pidx: rustc_middle::mir::Promoted) -> Option<String> {
        let ldid = did.as_local()?;
        let proms = self.tcx.promoted_mir(ldid.to_def_id());
        let body = proms.get(pidx)?;
        for bb in body.basic_blocks.iter() {
            for st in bb.statements.iter() {
                if let StatementKind::Assign(b) = &st.kind {
                    if let Rvalue::Use(Operand::Constant(c2), ..) = &b.1 {
                        let ty = c2.const_.ty();
                        if let ty::Ref(_, inner, _) = ty.kind() {
                            if inner.is_str() {
                                match c2.const_ {
                                    Const::Val(cv, _) => {
                                        if let Some(bytes) = cv.try_get_slice_bytes_for_diagnostics(self.tcx) {
                                            return Some(String::from_utf8_lossy(bytes).to_string());
                                        }
                                    }
                                    Const::Unevaluated(uv2, _) if uv2.promoted.is_none() => {
                                        return self.const_str(uv2.def);
                                    }
                                    _ => {}
                                }
                            }
                        }
                    }
                }
            }
        }
        None
    }

    fn operand(&self, o: &Operand<'tcx>) -> J {
        match o {
            Operand::Copy(p) => J::obj(vec![("k", J::s("copy")), ("place", self.place(p))]),
            Operand::Move(p) => J::obj(vec![("k", J::s("move")), ("place", self.place(p))]),
            Operand::Constant(c) => self.konst(c),
            #[allow(unreachable_patterns)]
            other => J::obj(vec![("k", J::s("other")), ("dbg", J::s(&format!("{:?}", other)))]),
        }
    }

    fn rvalue(&self, rv: &Rvalue<'tcx>) -> J {
        match rv {
            Rvalue::Use(op, ..) => J::obj(vec![("k", J::s("use")), ("op", self.operand(op))]),
            Rvalue::Repeat(op, n) => J::obj(vec![
                ("k", J::s("repeat")),
                ("op", self.operand(op)),
                ("n", J::s(&format!("{}", n))),
            ]),
            Rvalue::Ref(_, bk, p) => J::obj(vec![
                ("k", J::s("ref")),
                ("mut", J::b(matches!(bk, BorrowKind::Mut { .. }))),
                ("place", self.place(p)),
            ]),
            Rvalue::RawPtr(kind, p) => J::obj(vec![
                ("k", J::s("rawptr")),
                ("mut", J::b(format!("{:?}", kind).contains("Mut"))),
                ("place", self.place(p)),
            ]),
            Rvalue::ThreadLocalRef(did) => J::obj(vec![
                ("k", J::s("tlsref")),
                ("static", J::s(&self.tcx.def_path_str(*did))),
            ]),
            Rvalue::Cast(kind, op, ty) => J::obj(vec![
                ("k", J::s("cast")),
                (
                    "kind",
                    J::s(&match kind {
                        CastKind::Transmute => "Transmute".to_string(),
                        other => format!("{:?}", other),
                    }),
                ),
                ("op", self.operand(op)),
                ("ty", J::s(&self.ty_s(*ty))),
            ]),
            Rvalue::BinaryOp(op, ab) => {
                let (a, b) = &**ab;
                J::obj(vec![
                    ("k", J::s("bin")),
                    ("op", J::s(&binop_name(*op))),
                    ("a", self.operand(a)),
                    ("b", self.operand(b)),
                ])
            }
            Rvalue::UnaryOp(op, a) => J::obj(vec![
                ("k", J::s("un")),
                (
                    "op",
                    J::s(&match op {
                        UnOp::Not => "Not".to_string(),
                        UnOp::Neg => "Neg".to_string(),
                        other => format!("{:?}", other),
                    }),
                ),
                ("a", self.operand(a)),
            ]),
            Rvalue::Discriminant(p) => {
                J::obj(vec![("k", J::s("discr")), ("place", self.place(p))])
            }
            Rvalue::Aggregate(kind, ops) => {
                let mut v = vec![("k", J::s("agg"))];
                match &**kind {
                    AggregateKind::Array(t) => {
                        v.push(("akind", J::s("array")));
                        v.push(("elem", J::s(&self.ty_s(*t))));
                    }
                    AggregateKind::Tuple => v.push(("akind", J::s("tuple"))),
                    AggregateKind::Adt(did, vidx, _, _, _) => {
                        v.push(("akind", J::s("adt")));
                        v.push(("name", J::s(&self.tcx.def_path_str(*did))));
                        let adt = self.tcx.adt_def(*did);
                        let var = adt.variant(*vidx);
                        v.push(("variant", J::s(&var.name.to_string())));
                        v.push((
                            "fields",
                            J::Arr(var.fields.iter().map(|f| J::s(&f.name.to_string())).collect()),
                        ));
                    }
                    AggregateKind::Closure(did, _) => {
                        v.push(("akind", J::s("closure")));
                        v.push(("name", J::s(&self.tcx.def_path_str(*did))));
                        if let Some(l) = did.as_local() {
                            let caps = self.tcx.closure_captures(l);
                            v.push((
                                "fields",
                                J::Arr(
                                    caps.iter()
                                        .map(|c| J::s(&c.var_ident.name.to_string()))
                                        .collect(),
                                ),
                            ));
                        }
                    }
                    other => {
                        v.push(("akind", J::s("other")));
                        v.push(("dbg", J::s(&format!("{:?}", other))));
                    }
                }
                v.push(("ops", J::Arr(ops.iter().map(|o| self.operand(o)).collect())));
                J::obj(v)
            }
            Rvalue::CopyForDeref(p) => {
                J::obj(vec![("k", J::s("use")), ("op", J::obj(vec![("k", J::s("copy")), ("place", self.place(p))])), ("cfd", J::b(true))])
            }
            other => J::obj(vec![("k", J::s("other")), ("dbg", J::s(&format!("{:?}", other)))]),
        }
    }

    fn callee(&self, func: &Operand<'tcx>) -> Vec<(&'static str, J)> {
        let mut v = Vec::new();
        match func {
            Operand::Constant(c) => {
                if let ty::FnDef(did, args) = c.const_.ty().kind() {
                    v.push(("callee_raw", J::s(&self.tcx.def_path_str(*did))));
                    v.push(("callee_generic", J::s(&self.tcx.def_path_str_with_args(*did, args))));
                    // try to resolve trait methods to their impl
                    let resolved = Instance::try_resolve(self.tcx, self.typing_env, *did, args);
                    let mut name = self.tcx.def_path_str(*did);
                    let mut rdid = *did;
                    if let Ok(Some(inst)) = resolved {
                        let d = inst.def_id();
                        rdid = d;
                        name = self.tcx.def_path_str(d);
                        v.push(("callee_resolved_generic", J::s(&self.tcx.def_path_str_with_args(d, inst.args))));
                    }
                    v.push(("callee", J::s(&name)));
                    v.push(("callee_local", J::b(rdid.is_local())));
                    v.push(("callee_krate", J::s(self.tcx.crate_name(rdid.krate).as_str())));
                    let sig = self.tcx.fn_sig(*did).instantiate(self.tcx, args).skip_norm_wip();
                    v.push(("ret_ty", J::s(&format!("{}", sig.output().skip_binder()))));
                    // self type of the generic args (first type arg) for method calls
                    let targs: Vec<J> = args
                        .iter()
                        .filter_map(|a| a.as_type().map(|t| J::s(&self.ty_s(t))))
                        .collect();
                    v.push(("targs", J::Arr(targs)));
                } else {
                    v.push(("callee_dbg", J::s(&format!("{:?}", c))));
                }
            }
            Operand::Copy(p) | Operand::Move(p) => {
                v.push(("callee_place", self.place(p)));
            }
            #[allow(unreachable_patterns)]
            _ => {}
        }
        v
    }

    fn terminator(&self, t: &mir::Terminator<'tcx>) -> J {
        let (line, exp) = line_of(self.tcx, t.source_info.span);
        let mut v: Vec<(&'static str, J)> = Vec::new();
        match &t.kind {
            TerminatorKind::Goto { target } => {
                v.push(("k", J::s("goto")));
                v.push(("target", J::n(target.index() as i128)));
            }
            TerminatorKind::SwitchInt { discr, targets } => {
                v.push(("k", J::s("switch")));
                v.push(("discr", self.operand(discr)));
                let dty = discr.ty(self.body, self.tcx);
                v.push(("discr_ty", J::s(&self.ty_s(dty))));
                let mut arr = Vec::new();
                for (val, bb) in targets.iter() {
                    arr.push(J::Arr(vec![J::n(val as i128), J::n(bb.index() as i128)]));
                }
                v.push(("targets", J::Arr(arr)));
                v.push(("otherwise", J::n(targets.otherwise().index() as i128)));
            }
            TerminatorKind::Return => v.push(("k", J::s("return"))),
            TerminatorKind::Unreachable => v.push(("k", J::s("unreachable"))),
            TerminatorKind::UnwindResume => v.push(("k", J::s("resume"))),
            TerminatorKind::UnwindTerminate(_) => v.push(("k", J::s("abort"))),
            TerminatorKind::Drop { place, target, unwind, .. } => {
                v.push(("k", J::s("drop")));
                v.push(("place", self.place(place)));
                let pty = place.ty(self.body, self.tcx).ty;
                v.push(("ty", J::s(&self.ty_s(pty))));
                v.push(("target", J::n(target.index() as i128)));
                if let mir::UnwindAction::Cleanup(bb) = unwind {
                    v.push(("unwind", J::n(bb.index() as i128)));
                }
            }
            TerminatorKind::Call { func, args, destination, target, unwind, fn_span, .. } => {
                v.push(("k", J::s("call")));
                v.extend(self.callee(func));
                v.push(("args", J::Arr(args.iter().map(|a| self.operand(&a.node)).collect())));
                v.push(("dest", self.place(destination)));
                let dty = destination.ty(self.body, self.tcx).ty;
                v.push(("dest_ty", J::s(&self.ty_s(dty))));
                match target {
                    Some(bb) => v.push(("target", J::n(bb.index() as i128))),
                    None => v.push(("target", J::Null)),
                }
                if let mir::UnwindAction::Cleanup(bb) = unwind {
                    v.push(("unwind", J::n(bb.index() as i128)));
                }
                let (fl, fexp) = line_of(self.tcx, *fn_span);
                v.push(("fn_line", J::n(fl)));
                v.push(("fn_exp", J::b(fexp)));
            }
            TerminatorKind::TailCall { func, args, .. } => {
                v.push(("k", J::s("tailcall")));
                v.extend(self.callee(func));
                v.push(("args", J::Arr(args.iter().map(|a| self.operand(&a.node)).collect())));
            }
            TerminatorKind::Assert { cond, expected, msg, target, unwind } => {
                v.push(("k", J::s("assert")));
                v.push(("cond", self.operand(cond)));
                v.push(("expected", J::b(*expected)));
                let (kind, ops): (String, Vec<J>) = match &**msg {
                    mir::AssertKind::BoundsCheck { len, index } => {
                        ("BoundsCheck".into(), vec![self.operand(len), self.operand(index)])
                    }
                    mir::AssertKind::Overflow(op, a, b) => {
                        (format!("Overflow({})", binop_name(*op)), vec![self.operand(a), self.operand(b)])
                    }
                    mir::AssertKind::OverflowNeg(a) => ("OverflowNeg".into(), vec![self.operand(a)]),
                    mir::AssertKind::DivisionByZero(a) => ("DivisionByZero".into(), vec![self.operand(a)]),
                    mir::AssertKind::RemainderByZero(a) => ("RemainderByZero".into(), vec![self.operand(a)]),
                    other => (format!("{:?}", other).split('(').next().unwrap_or("Other").to_string(), vec![]),
                };
                v.push(("msg", J::s(&kind)));
                v.push(("msg_ops", J::Arr(ops)));
                v.push(("target", J::n(target.index() as i128)));
                if let mir::UnwindAction::Cleanup(bb) = unwind {
                    v.push(("unwind", J::n(bb.index() as i128)));
                }
            }
            TerminatorKind::FalseEdge { real_target, .. } => {
                v.push(("k", J::s("goto")));
                v.push(("target", J::n(real_target.index() as i128)));
            }
            TerminatorKind::FalseUnwind { real_target, .. } => {
                v.push(("k", J::s("goto")));
                v.push(("target", J::n(real_target.index() as i128)));
            }
            other => {
                v.push(("k", J::s("other")));
                v.push(("dbg", J::s(&format!("{:?}", other))));
                let succ: Vec<J> = t.successors().map(|b| J::n(b.index() as i128)).collect();
                v.push(("succ", J::Arr(succ)));
            }
        }
        v.push(("line", J::n(line)));
        v.push(("exp", J::b(exp)));
        J::obj(v)
    }

    fn dump(&self) -> J {
        let tcx = self.tcx;
        let body = self.body;
        let mut out: Vec<(&'static str, J)> = Vec::new();
        let kind = tcx.def_kind(self.def_id);
        out.push(("kind", J::s(&format!("{:?}", kind))));
        out.push(("span", span_json(tcx, body.span)));
        out.push(("arg_count", J::n(body.arg_count as i128)));
        if matches!(kind, DefKind::Fn | DefKind::AssocFn) {
            out.push(("vis", J::s(&format!("{:?}", tcx.visibility(self.def_id)))));
            out.push(("is_pub", J::b(tcx.visibility(self.def_id).is_public())));
            let sig = tcx.fn_sig(self.def_id).instantiate_identity().skip_norm_wip();
            out.push(("ret_ty", J::s(&format!("{}", sig.output().skip_binder()))));
            out.push(("unsafe", J::b(sig.safety().is_unsafe())));
        }
        if matches!(kind, DefKind::Closure) {
            let parent = tcx.parent(self.def_id);
            out.push(("parent", J::s(&tcx.def_path_str(parent))));
            if let Some(l) = self.def_id.as_local() {
                let caps = tcx.closure_captures(l);
                out.push((
                    "captures",
                    J::Arr(
                        caps.iter()
                            .map(|c| {
                                J::obj(vec![
                                    ("name", J::s(&c.var_ident.name.to_string())),
                                    ("by_ref", J::b(matches!(c.info.capture_kind, ty::UpvarCapture::ByRef(_)))),
                                    ("ty", J::s(&format!("{}", c.place.ty()))),
                                ])
                            })
                            .collect(),
                    ),
                ));
            }
        }
        // impl-of info
        if let Some(impl_did) = tcx.impl_of_assoc(self.def_id) {
            let self_ty = tcx.type_of(impl_did).instantiate_identity().skip_norm_wip();
            out.push(("impl_self", J::s(&format!("{}", self_ty))));
            if let Some(tr) = tcx.impl_opt_trait_ref(impl_did) {
                out.push(("impl_trait", J::s(&tcx.def_path_str(tr.skip_binder().def_id))));
            }
        }
        // locals
        let mut names: Vec<Option<String>> = vec![None; body.local_decls.len()];
        let mut vdi = Vec::new();
        for d in body.var_debug_info.iter() {
            let name = d.name.to_string();
            let val = match &d.value {
                mir::VarDebugInfoContents::Place(p) => {
                    if p.projection.is_empty() && names[p.local.index()].is_none() {
                        names[p.local.index()] = Some(name.clone());
                    }
                    self.place(p)
                }
                mir::VarDebugInfoContents::Const(c) => self.konst(c),
            };
            let (l, _) = line_of(tcx, d.source_info.span);
            let mut e = vec![("name", J::s(&name)), ("value", val), ("line", J::n(l))];
            if let Some(ai) = d.argument_index {
                e.push(("arg", J::n(ai as i128)));
            }
            vdi.push(J::obj(e));
        }
        let mut locals = Vec::new();
        for (i, ld) in body.local_decls.iter_enumerated() {
            let mut e = vec![("ty", J::s(&self.ty_s(ld.ty)))];
            if let Some(n) = &names[i.index()] {
                e.push(("name", J::s(n)));
            }
            e.push(("user", J::b(names[i.index()].is_some())));
            let (l, _) = line_of(tcx, ld.source_info.span);
            e.push(("line", J::n(l)));
            locals.push(J::obj(e));
        }
        out.push(("locals", J::Arr(locals)));
        out.push(("var_debug", J::Arr(vdi)));
        // blocks
        let mut blocks = Vec::new();
        for (_bb, data) in body.basic_blocks.iter_enumerated() {
            let mut stmts = Vec::new();
            for st in data.statements.iter() {
                let (line, exp) = line_of(tcx, st.source_info.span);
                match &st.kind {
                    StatementKind::Assign(b) => {
                        let (p, rv) = &**b;
                        stmts.push(J::obj(vec![
                            ("k", J::s("assign")),
                            ("place", self.place(p)),
                            ("rv", self.rvalue(rv)),
                            ("line", J::n(line)),
                            ("exp", J::b(exp)),
                        ]));
                    }
                    StatementKind::SetDiscriminant { place, variant_index } => {
                        stmts.push(J::obj(vec![
                            ("k", J::s("setdiscr")),
                            ("place", self.place(place)),
                            ("vi", J::n(variant_index.index() as i128)),
                            ("line", J::n(line)),
                        ]));
                    }
                    StatementKind::StorageDead(l) => {
                        stmts.push(J::obj(vec![("k", J::s("dead")), ("l", J::n(l.index() as i128))]));
                    }
                    StatementKind::StorageLive(l) => {
                        stmts.push(J::obj(vec![("k", J::s("live")), ("l", J::n(l.index() as i128))]));
                    }
                    StatementKind::Intrinsic(i) => {
                        stmts.push(J::obj(vec![
                            ("k", J::s("intrinsic")),
                            ("dbg", J::s(&format!("{:?}", i))),
                            ("line", J::n(line)),
                        ]));
                    }
                    _ => {}
                }
            }
            let term = match &data.terminator {
                Some(t) => self.terminator(t),
                None => J::Null,
            };
            blocks.push(J::obj(vec![
                ("cleanup", J::b(data.is_cleanup)),
                ("stmts", J::Arr(stmts)),
                ("term", term),
            ]));
        }
        out.push(("blocks", J::Arr(blocks)));
        J::obj(out)
    }
}

fn binop_name(op: BinOp) -> String {
    format!("{:?}", op)
}

fn dump_crate<'tcx>(tcx: TyCtxt<'tcx>) -> J {
    let mut bodies: Vec<(String, J)> = Vec::new();
    let mut stats_fns = 0usize;
    let mut stats_blocks = 0usize;
    for ldid in tcx.mir_keys(()) {
        let did = ldid.to_def_id();
        let kind = tcx.def_kind(did);
        if !matches!(kind, DefKind::Fn | DefKind::AssocFn | DefKind::Closure) {
            continue;
        }
        // skip derive / macro generated items (whole item span from expansion)
        let item_span = tcx.def_span(did);
        let derived = item_span.from_expansion() && !matches!(kind, DefKind::Closure);
        let path = tcx.def_path_str(did);
        if tcx.is_constructor(did) {
            continue;
        }
        let body = tcx.optimized_mir(did);
        let cx = Cx { tcx, body, def_id: did, typing_env: TypingEnv::post_analysis(tcx, did) };
        let mut j = cx.dump();
        if let J::Obj(ref mut v) = j {
            v.push(("derived".to_string(), J::b(derived)));
        }
        stats_fns += 1;
        stats_blocks += body.basic_blocks.len();
        // disambiguate duplicate def paths (closures get {closure#n} so they are unique)
        let mut key = path.clone();
        let mut n = 1;
        while bodies.iter().any(|(k, _)| *k == key) {
            n += 1;
            key = format!("{}#{}", path, n);
        }
        bodies.push((key, j));
    }
    // statics and consts
    let mut statics = Vec::new();
    let mut consts = Vec::new();
    let mut adts = Vec::new();
    for ldid in tcx.hir_crate_items(()).definitions() {
        let did = ldid.to_def_id();
        match tcx.def_kind(did) {
            DefKind::Static { mutability, nested, .. } => {
                let ty = tcx.type_of(did).instantiate_identity().skip_norm_wip();
                let parent = tcx.parent(did);
                let attrs_tl = tcx.is_thread_local_static(did);
                statics.push(J::obj(vec![
                    ("name", J::s(&tcx.def_path_str(did))),
                    ("ty", J::s(&format!("{}", ty))),
                    ("mut", J::b(mutability.is_mut())),
                    ("nested", J::b(nested)),
                    ("thread_local", J::b(attrs_tl)),
                    ("parent", J::s(&tcx.def_path_str(parent))),
                    ("parent_kind", J::s(&format!("{:?}", tcx.def_kind(parent)))),
                    ("span", span_json(tcx, tcx.def_span(did))),
                    ("freeze", J::b(ty.is_freeze(tcx, TypingEnv::fully_monomorphized()))),
                ]));
            }
            DefKind::Const { .. } | DefKind::AssocConst { .. } => {
                let ty = tcx.type_of(did).instantiate_identity().skip_norm_wip();
                let mut e = vec![
                    ("name", J::s(&tcx.def_path_str(did))),
                    ("ty", J::s(&format!("{}", ty))),
                    ("span", span_json(tcx, tcx.def_span(did))),
                ];
                if ty.is_integral() || ty.is_bool() || ty.is_char() {
                    if let Ok(val) = tcx.const_eval_poly(did) {
                        if let Some(s) = val.try_to_scalar_int() {
                            let bits = s.to_bits(s.size());
                            if bits <= i128::MAX as u128 {
                                e.push(("val", J::n(bits as i128)));
                            }
                        }
                    }
                }
                if let ty::Ref(_, inner, _) = ty.kind() {
                    if inner.is_str() {
                        if let Ok(val) = tcx.const_eval_poly(did) {
                            if let Some(bytes) = val.try_get_slice_bytes_for_diagnostics(tcx) {
                                e.push(("str", J::s(&String::from_utf8_lossy(bytes))));
                            }
                        }
                    }
                }
                consts.push(J::obj(e));
            }
            DefKind::Struct | DefKind::Enum | DefKind::Union => {
                let adt = tcx.adt_def(did);
                let mut variants = Vec::new();
                for v in adt.variants().iter() {
                    let fields: Vec<J> = v
                        .fields
                        .iter()
                        .map(|f| {
                            let fty = tcx.type_of(f.did).instantiate_identity().skip_norm_wip();
                            J::obj(vec![
                                ("name", J::s(&f.name.to_string())),
                                ("ty", J::s(&format!("{}", fty))),
                                ("vis", J::s(&format!("{:?}", f.vis))),
                            ])
                        })
                        .collect();
                    variants.push(J::obj(vec![
                        ("name", J::s(&v.name.to_string())),
                        ("fields", J::Arr(fields)),
                    ]));
                }
                adts.push(J::obj(vec![
                    ("name", J::s(&tcx.def_path_str(did))),
                    ("kind", J::s(&format!("{:?}", tcx.def_kind(did)))),
                    ("variants", J::Arr(variants)),
                    ("span", span_json(tcx, tcx.def_span(did))),
                ]));
            }
            _ => {}
        }
    }
    // trait impls
    let mut impls = Vec::new();
    for (trait_did, impl_list) in tcx.all_local_trait_impls(()).iter() {
        for l in impl_list.iter() {
            let self_ty = tcx.type_of(l.to_def_id()).instantiate_identity().skip_norm_wip();
            impls.push(J::obj(vec![
                ("trait", J::s(&tcx.def_path_str(*trait_did))),
                ("self_ty", J::s(&format!("{}", self_ty))),
                ("derived", J::b(tcx.def_span(l.to_def_id()).from_expansion())),
                ("span", span_json(tcx, tcx.def_span(l.to_def_id()))),
            ]));
        }
    }
    J::Obj(vec![
        ("crate".to_string(), J::s(tcx.crate_name(LOCAL_CRATE).as_str())),
        ("nonce".to_string(), J::s(&std::env::var("MIRFACTS_NONCE").unwrap_or_default())),
        ("n_bodies".to_string(), J::n(stats_fns as i128)),
        ("n_blocks".to_string(), J::n(stats_blocks as i128)),
        ("bodies".to_string(), J::Obj(bodies)),
        ("statics".to_string(), J::Arr(statics)),
        ("consts".to_string(), J::Arr(consts)),
        ("adts".to_string(), J::Arr(adts)),
        ("impls".to_string(), J::Arr(impls)),
    ])
}

impl rustc_driver::Callbacks for Cb {
    fn after_analysis<'tcx>(
        &mut self,
        _c: &rustc_interface::interface::Compiler,
        tcx: TyCtxt<'tcx>,
    ) -> Compilation {
        let krate = tcx.crate_name(LOCAL_CRATE).to_string();
        let want = std::env::var("MIRFACTS_CRATES").unwrap_or_default();
        if !want.split(',').any(|w| w == krate) {
            return Compilation::Continue;
        }
        // only lib targets (skip build scripts / bins with the same crate name)
        let out_dir = match std::env::var("MIRFACTS_OUT") {
            Ok(d) => d,
            Err(_) => return Compilation::Continue,
        };
        let doc = dump_crate(tcx);
        let mut s = String::with_capacity(1 << 22);
        doc.write(&mut s);
        let path = format!("{}/{}.json", out_dir, krate);
        let tmp = format!("{}.{}.tmp", path, std::process::id());
        std::fs::write(&tmp, s.as_bytes()).expect("mirfacts: cannot write facts");
        std::fs::rename(&tmp, &path).expect("mirfacts: cannot rename facts");
        Compilation::Continue
    }
}

fn main() {
    let mut args: Vec<String> = std::env::args().collect();
    // RUSTC_WORKSPACE_WRAPPER: argv[1] is the path of the real rustc
    if args.len() > 1 && (args[1].ends_with("rustc") || args[1].contains("/rustc")) {
        args.remove(1);
    }
    rustc_driver::run_compiler(&args, &mut Cb);
}
