//! Minimal JSON value + writer (no dependencies).
pub enum J {
    Null,
    Bool(bool),
    Num(i128),
    Str(String),
    Arr(Vec<J>),
    Obj(Vec<(String, J)>),
}

impl J {
    pub fn s(x: &str) -> J {
        J::Str(x.to_string())
    }
    pub fn n(x: i128) -> J {
        J::Num(x)
    }
    pub fn b(x: bool) -> J {
        J::Bool(x)
    }
    pub fn obj(v: Vec<(&'static str, J)>) -> J {
        J::Obj(v.into_iter().map(|(k, v)| (k.to_string(), v)).collect())
    }
    pub fn write(&self, out: &mut String) {
        match self {
            J::Null => out.push_str("null"),
            J::Bool(b) => out.push_str(if *b { "true" } else { "false" }),
            J::Num(n) => out.push_str(&n.to_string()),
            J::Str(s) => write_str(s, out),
            J::Arr(a) => {
                out.push('[');
                for (i, x) in a.iter().enumerate() {
                    if i > 0 {
                        out.push(',');
                    }
                    x.write(out);
                }
                out.push(']');
            }
            J::Obj(o) => {
                out.push('{');
                for (i, (k, v)) in o.iter().enumerate() {
                    if i > 0 {
                        out.push(',');
                    }
                    write_str(k, out);
                    out.push(':');
                    v.write(out);
                }
                out.push('}');
            }
        }
    }
}

fn write_str(s: &str, out: &mut String) {
    out.push('"');
    for c in s.chars() {
        match c {
            '"' => out.push_str("\\\""),
            '\\' => out.push_str("\\\\"),
            '\n' => out.push_str("\\n"),
            '\r' => out.push_str("\\r"),
            '\t' => out.push_str("\\t"),
            c if (c as u32) < 0x20 => out.push_str(&format!("\\u{:04x}", c as u32)),
            c => out.push(c),
        }
    }
    out.push('"');
}
