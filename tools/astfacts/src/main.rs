//! astfacts: syn-2 syntax-tree extractor.  `astfacts file.rs ...` prints one JSON document
//! {"files": {"<path>": {"items": [...]}}} with a structured statement/expression tree for
//! every function (free fns, impl methods, trait methods), plus struct/enum definitions.
mod json;
use json::J;
use quote::ToTokens;
use syn::spanned::Spanned;

fn line<T: Spanned>(t: &T) -> i128 {
    t.span().start().line as i128
}

fn text<T: ToTokens>(t: &T) -> String {
    let s = t.to_token_stream().to_string();
    s
}

fn short_text<T: ToTokens>(t: &T) -> J {
    let s = text(t);
    if s.len() <= 400 {
        J::s(&s)
    } else {
        J::s(&s[..s.char_indices().nth(400).map(|x| x.0).unwrap_or(s.len())])
    }
}

fn node(kind: &str, ln: i128, mut fields: Vec<(&'static str, J)>) -> J {
    let mut v = vec![("k", J::s(kind)), ("line", J::n(ln))];
    v.append(&mut fields);
    J::obj(v)
}

fn block(b: &syn::Block) -> J {
    node("block", line(b), vec![("stmts", J::Arr(b.stmts.iter().map(stmt).collect()))])
}

fn stmt(s: &syn::Stmt) -> J {
    match s {
        syn::Stmt::Local(l) => {
            let mut f = vec![("pat", J::s(&text(&l.pat)))];
            if let Some(init) = &l.init {
                f.push(("init", expr(&init.expr)));
                if let Some((_, els)) = &init.diverge {
                    f.push(("else", expr(els)));
                }
            }
            node("let", line(l), f)
        }
        syn::Stmt::Item(i) => node("item", line(i), vec![("text", short_text(i))]),
        syn::Stmt::Expr(e, semi) => node("expr", line(e), vec![("e", expr(e)), ("semi", J::b(semi.is_some()))]),
        syn::Stmt::Macro(m) => node(
            "expr",
            line(m),
            vec![("e", mac(&m.mac, line(m))), ("semi", J::b(m.semi_token.is_some()))],
        ),
    }
}

fn mac(m: &syn::Macro, ln: i128) -> J {
    let name = text(&m.path).replace(' ', "");
    let mut f = vec![("name", J::s(&name)), ("tokens", J::s(&m.tokens.to_string()))];
    // try to parse the arguments as a comma separated expression list
    if let Ok(args) = m.parse_body_with(syn::punctuated::Punctuated::<syn::Expr, syn::Token![,]>::parse_terminated) {
        f.push(("args", J::Arr(args.iter().map(expr).collect())));
    }
    node("macro", ln, f)
}

fn expr(e: &syn::Expr) -> J {
    use syn::Expr::*;
    let ln = line(e);
    match e {
        Array(a) => node("array", ln, vec![("elems", J::Arr(a.elems.iter().map(expr).collect()))]),
        Assign(a) => node("assign", ln, vec![("lhs", expr(&a.left)), ("rhs", expr(&a.right)), ("text", short_text(e))]),
        Async(a) => node("async", ln, vec![("move", J::b(a.capture.is_some())), ("body", block(&a.block))]),
        Await(a) => node("await", ln, vec![("e", expr(&a.base))]),
        Binary(b) => node(
            "binary",
            ln,
            vec![("op", J::s(&text(&b.op))), ("l", expr(&b.left)), ("r", expr(&b.right)), ("text", short_text(e))],
        ),
        Block(b) => block(&b.block),
        Break(b) => node("break", ln, vec![("e", b.expr.as_ref().map(|x| expr(x)).unwrap_or(J::Null))]),
        Call(c) => node(
            "call",
            ln,
            vec![("f", expr(&c.func)), ("args", J::Arr(c.args.iter().map(expr).collect())), ("text", short_text(e))],
        ),
        Cast(c) => node("cast", ln, vec![("e", expr(&c.expr)), ("ty", J::s(&text(&c.ty))), ("text", short_text(e))]),
        Closure(c) => node(
            "closure",
            ln,
            vec![
                ("inputs", J::Arr(c.inputs.iter().map(|p| J::s(&text(p))).collect())),
                ("move", J::b(c.capture.is_some())),
                ("async", J::b(c.asyncness.is_some())),
                ("body", expr(&c.body)),
            ],
        ),
        Continue(_) => node("continue", ln, vec![]),
        Field(f) => node("field", ln, vec![("base", expr(&f.base)), ("member", J::s(&text(&f.member))), ("text", short_text(e))]),
        ForLoop(f) => node("for", ln, vec![("pat", J::s(&text(&f.pat))), ("iter", expr(&f.expr)), ("body", block(&f.body))]),
        Group(g) => expr(&g.expr),
        If(i) => node(
            "if",
            ln,
            vec![
                ("cond", expr(&i.cond)),
                ("then", block(&i.then_branch)),
                ("else", i.else_branch.as_ref().map(|(_, x)| expr(x)).unwrap_or(J::Null)),
            ],
        ),
        Index(i) => node("index", ln, vec![("base", expr(&i.expr)), ("idx", expr(&i.index)), ("text", short_text(e))]),
        Let(l) => node("letcond", ln, vec![("pat", J::s(&text(&l.pat))), ("e", expr(&l.expr))]),
        Lit(l) => {
            let mut f = vec![("text", J::s(&text(l)))];
            match &l.lit {
                syn::Lit::Str(s) => f.push(("str", J::s(&s.value()))),
                syn::Lit::ByteStr(s) => f.push(("bytes", J::s(&String::from_utf8_lossy(&s.value())))),
                syn::Lit::Int(i) => {
                    if let Ok(v) = i.base10_parse::<i128>() {
                        f.push(("int", J::n(v)));
                    }
                }
                syn::Lit::Bool(b) => f.push(("bool", J::b(b.value))),
                syn::Lit::Char(c) => f.push(("chr", J::s(&c.value().to_string()))),
                _ => {}
            }
            node("lit", ln, f)
        }
        Loop(l) => node("loop", ln, vec![("body", block(&l.body))]),
        Macro(m) => mac(&m.mac, ln),
        Match(m) => node(
            "match",
            ln,
            vec![
                ("e", expr(&m.expr)),
                (
                    "arms",
                    J::Arr(
                        m.arms
                            .iter()
                            .map(|a| {
                                J::obj(vec![
                                    ("pat", J::s(&text(&a.pat))),
                                    ("line", J::n(line(a))),
                                    ("guard", a.guard.as_ref().map(|(_, g)| expr(g)).unwrap_or(J::Null)),
                                    ("body", expr(&a.body)),
                                ])
                            })
                            .collect(),
                    ),
                ),
            ],
        ),
        MethodCall(m) => node(
            "mcall",
            ln,
            vec![
                ("recv", expr(&m.receiver)),
                ("method", J::s(&m.method.to_string())),
                ("turbofish", m.turbofish.as_ref().map(|t| J::s(&text(t))).unwrap_or(J::Null)),
                ("args", J::Arr(m.args.iter().map(expr).collect())),
                ("text", short_text(e)),
            ],
        ),
        Paren(p) => expr(&p.expr),
        Path(p) => node("path", ln, vec![("p", J::s(&text(p).replace(' ', "")))]),
        Range(r) => node(
            "range",
            ln,
            vec![
                ("from", r.start.as_ref().map(|x| expr(x)).unwrap_or(J::Null)),
                ("to", r.end.as_ref().map(|x| expr(x)).unwrap_or(J::Null)),
                ("text", short_text(e)),
            ],
        ),
        Reference(r) => node("ref", ln, vec![("mut", J::b(r.mutability.is_some())), ("e", expr(&r.expr))]),
        Repeat(r) => node("repeat", ln, vec![("e", expr(&r.expr)), ("len", expr(&r.len)), ("text", short_text(e))]),
        Return(r) => node("return", ln, vec![("e", r.expr.as_ref().map(|x| expr(x)).unwrap_or(J::Null))]),
        Struct(s) => node(
            "struct",
            ln,
            vec![
                ("path", J::s(&text(&s.path).replace(' ', ""))),
                (
                    "fields",
                    J::Arr(
                        s.fields
                            .iter()
                            .map(|f| J::obj(vec![("name", J::s(&text(&f.member))), ("e", expr(&f.expr))]))
                            .collect(),
                    ),
                ),
                ("rest", s.rest.as_ref().map(|x| expr(x)).unwrap_or(J::Null)),
            ],
        ),
        Try(t) => node("try", ln, vec![("e", expr(&t.expr))]),
        Tuple(t) => node("tuple", ln, vec![("elems", J::Arr(t.elems.iter().map(expr).collect()))]),
        Unary(u) => node("unary", ln, vec![("op", J::s(&text(&u.op))), ("e", expr(&u.expr)), ("text", short_text(e))]),
        Unsafe(u) => node("unsafe", ln, vec![("body", block(&u.block))]),
        While(w) => node("while", ln, vec![("cond", expr(&w.cond)), ("body", block(&w.body))]),
        other => node("other", ln, vec![("text", short_text(other))]),
    }
}

fn sig(s: &syn::Signature) -> Vec<(&'static str, J)> {
    let mut params = Vec::new();
    for i in s.inputs.iter() {
        match i {
            syn::FnArg::Receiver(r) => params.push(J::obj(vec![("name", J::s("self")), ("ty", J::s(&text(r)))])),
            syn::FnArg::Typed(t) => params.push(J::obj(vec![("name", J::s(&text(&t.pat))), ("ty", J::s(&text(&t.ty)))])),
        }
    }
    vec![
        ("name", J::s(&s.ident.to_string())),
        ("async", J::b(s.asyncness.is_some())),
        ("params", J::Arr(params)),
        ("ret", J::s(&match &s.output {
            syn::ReturnType::Default => "()".to_string(),
            syn::ReturnType::Type(_, t) => text(t),
        })),
    ]
}

fn attrs(a: &[syn::Attribute]) -> J {
    J::Arr(a.iter().map(|x| J::s(&text(x))).collect())
}

fn item(i: &syn::Item, out: &mut Vec<J>, ctx: &str) {
    match i {
        syn::Item::Fn(f) => {
            let mut v = vec![("k", J::s("fn")), ("line", J::n(line(f))), ("ctx", J::s(ctx)), ("attrs", attrs(&f.attrs))];
            v.extend(sig(&f.sig));
            v.push(("body", block(&f.block)));
            out.push(J::obj(v));
        }
        syn::Item::Impl(im) => {
            let self_ty = text(&im.self_ty).replace(' ', "");
            let tr = im.trait_.as_ref().map(|(_, p, _)| text(p).replace(' ', ""));
            let c = match &tr {
                Some(t) => format!("impl {} for {}", t, self_ty),
                None => format!("impl {}", self_ty),
            };
            for it in im.items.iter() {
                if let syn::ImplItem::Fn(f) = it {
                    let mut v = vec![
                        ("k", J::s("fn")),
                        ("line", J::n(line(f))),
                        ("ctx", J::s(&c)),
                        ("self_ty", J::s(&self_ty)),
                        ("trait", tr.as_ref().map(|t| J::s(t)).unwrap_or(J::Null)),
                        ("attrs", attrs(&f.attrs)),
                    ];
                    v.extend(sig(&f.sig));
                    v.push(("body", block(&f.block)));
                    out.push(J::obj(v));
                }
            }
        }
        syn::Item::Trait(t) => {
            let c = format!("trait {}", t.ident);
            for it in t.items.iter() {
                if let syn::TraitItem::Fn(f) = it {
                    let mut v = vec![("k", J::s("traitfn")), ("line", J::n(line(f))), ("ctx", J::s(&c))];
                    v.extend(sig(&f.sig));
                    v.push(("has_default", J::b(f.default.is_some())));
                    v.push(("sigtext", J::s(&text(&f.sig))));
                    out.push(J::obj(v));
                }
            }
        }
        syn::Item::Struct(s) => {
            let fields: Vec<J> = s
                .fields
                .iter()
                .enumerate()
                .map(|(i, f)| {
                    J::obj(vec![
                        ("name", J::s(&f.ident.as_ref().map(|x| x.to_string()).unwrap_or_else(|| i.to_string()))),
                        ("ty", J::s(&text(&f.ty))),
                        ("attrs", attrs(&f.attrs)),
                    ])
                })
                .collect();
            out.push(J::obj(vec![
                ("k", J::s("struct")),
                ("line", J::n(line(s))),
                ("name", J::s(&s.ident.to_string())),
                ("attrs", attrs(&s.attrs)),
                ("fields", J::Arr(fields)),
            ]));
        }
        syn::Item::Enum(e) => {
            let vars: Vec<J> = e
                .variants
                .iter()
                .map(|v| {
                    J::obj(vec![
                        ("name", J::s(&v.ident.to_string())),
                        ("fields", J::Arr(v.fields.iter().map(|f| J::obj(vec![("name", J::s(&f.ident.as_ref().map(|x| x.to_string()).unwrap_or_default())), ("ty", J::s(&text(&f.ty)))])).collect())),
                        ("attrs", attrs(&v.attrs)),
                    ])
                })
                .collect();
            out.push(J::obj(vec![
                ("k", J::s("enum")),
                ("line", J::n(line(e))),
                ("name", J::s(&e.ident.to_string())),
                ("attrs", attrs(&e.attrs)),
                ("variants", J::Arr(vars)),
            ]));
        }
        syn::Item::Const(c) => {
            out.push(J::obj(vec![
                ("k", J::s("const")),
                ("line", J::n(line(c))),
                ("name", J::s(&c.ident.to_string())),
                ("ty", J::s(&text(&c.ty))),
                ("e", expr(&c.expr)),
            ]));
        }
        syn::Item::Mod(m) => {
            if let Some((_, items)) = &m.content {
                let c = format!("{}mod {}::", ctx, m.ident);
                for it in items {
                    item(it, out, &c);
                }
            }
        }
        _ => {}
    }
}

fn main() {
    let mut files = Vec::new();
    for path in std::env::args().skip(1) {
        let src = std::fs::read_to_string(&path).unwrap_or_else(|e| {
            eprintln!("astfacts: cannot read {}: {}", path, e);
            std::process::exit(2)
        });
        let f = match syn::parse_file(&src) {
            Ok(f) => f,
            Err(e) => {
                eprintln!("astfacts: cannot parse {}: {}", path, e);
                std::process::exit(3)
            }
        };
        let mut items = Vec::new();
        for it in f.items.iter() {
            item(it, &mut items, "");
        }
        files.push((path.clone(), J::obj(vec![("items", J::Arr(items)), ("n_lines", J::n(src.lines().count() as i128))])));
    }
    let doc = J::Obj(vec![("files".to_string(), J::Obj(files))]);
    let mut s = String::new();
    doc.write(&mut s);
    println!("{}", s);
}
